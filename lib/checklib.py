"""Orchestrator shared by bin/check: proof obligations, harness, Coq evaluation, verdict."""
import argparse, concurrent.futures, fcntl, glob, hashlib, json, os, re, shutil, subprocess, sys, time

ROOT = os.path.dirname(os.path.dirname(os.path.abspath(__file__)))
COQ = os.path.join(ROOT, "coq")
WORK = os.path.join(ROOT, ".work")
HARNESS_SRC = os.path.join(ROOT, "harness")
EVID = os.path.join(ROOT, "evidence")
REPLAYS = os.path.join(ROOT, "replays")
GOENV = dict(os.environ, GOFLAGS="-mod=mod", GOPROXY="off", GOSUMDB="off", GOTOOLCHAIN="local",
             CGO_ENABLED=os.environ.get("CGO_ENABLED", "1"))

# many coqc processes in parallel contend on page faults in this VM unless the OCaml heap grows in small steps
COQENV = dict(os.environ, OCAMLRUNPARAM=os.environ.get("OCAMLRUNPARAM", "s=512k,i=2M"))

from props import PROPS  # per-property configuration

TRUSTED_BASE = [
    "Coq 8.16.1 kernel incl. the vm_compute bytecode VM (no native_compute)",
    "axioms: none (Print Assumptions under every property theorem must say 'Closed under the global context')",
    "no extraction: case files evaluate the proved Gallina definitions inside Coq",
    "hand-written Gallina model of flyt (coq/Model); tied to /repo only by the correspondence check",
    "Go harness + Coq-term emitter (harness/), python orchestrator (lib/checklib.py)",
    "Go runtime semantics of sync, channels, context, time, reflect, encoding/json as stated in DESIGN.md section 9",
]


class Broken(Exception):
    """The machinery itself failed (not a verdict about flyt)."""


def sh(cmd, cwd=None, env=None, timeout=None, check=False):
    p = subprocess.run(cmd, cwd=cwd, env=env, timeout=timeout, stdout=subprocess.PIPE,
                       stderr=subprocess.STDOUT, text=True)
    if check and p.returncode != 0:
        raise Broken("command failed: %s\n%s" % (" ".join(cmd), p.stdout[-4000:]))
    return p.returncode, p.stdout


# ------------------------------------------------------------------ proof obligations

FORBIDDEN = [r"\bAdmitted\b", r"\badmit\b", r"\bAxiom\b", r"\bAxioms\b", r"\bParameter\b", r"\bParameters\b",
             r"\bConjecture\b", r"Admit Obligations", r"Unset Guard Checking", r"bypass_check",
             r"Unset Positivity Checking", r"Unset Universe Checking", r"type-in-type", r"impredicative-set",
             r"native_compute"]


def strip_comments(src):
    out, depth, i = [], 0, 0
    while i < len(src):
        if src.startswith("(*", i):
            depth += 1; i += 2
        elif src.startswith("*)", i) and depth > 0:
            depth -= 1; i += 2
        else:
            if depth == 0:
                out.append(src[i])
            elif src[i] == "\n":
                out.append("\n")
            i += 1
    return "".join(out)


def lint_coq():
    """No Admitted/admit/Axiom/Parameter/..., no Variable/Hypothesis/Context outside a Section."""
    problems = []
    files = sorted(glob.glob(os.path.join(COQ, "**", "*.v"), recursive=True))
    for f in files:
        src = strip_comments(open(f).read())
        for pat in FORBIDDEN:
            for m in re.finditer(pat, src):
                line = src.count("\n", 0, m.start()) + 1
                problems.append("%s:%d: forbidden %s" % (os.path.relpath(f, ROOT), line, m.group(0)))
        depth = 0
        for ln, line in enumerate(src.split("\n"), 1):
            s = line.strip()
            if re.match(r"Section\s+\w+", s):
                depth += 1
            elif re.match(r"End\s+\w+\s*\.", s) and depth > 0:
                depth -= 1
            elif re.match(r"(Variable|Variables|Hypothesis|Hypotheses|Context)\b", s) and depth == 0:
                problems.append("%s:%d: %s outside a Section" % (os.path.relpath(f, ROOT), ln, s.split()[0]))
    # property files hold statements only: every proof is `exact <lemma>`
    for f in sorted(glob.glob(os.path.join(COQ, "Properties", "*.v"))):
        src = strip_comments(open(f).read())
        for m in re.finditer(r"Proof\.(.*?)Qed\.", src, re.S):
            if not re.fullmatch(r"\s*exact\s+[A-Za-z0-9_.@' ()]+\.\s*", m.group(1)):
                line = src.count("\n", 0, m.start()) + 1
                problems.append("%s:%d: a proof in a property file is not `exact <lemma>`" % (os.path.relpath(f, ROOT), line))
        if re.search(r"\b(Lemma|Definition|Fixpoint|Example|Ltac|Instance)\b", src):
            problems.append("%s: a property file declares something other than theorems" % os.path.relpath(f, ROOT))
    for f in (os.path.join(COQ, "_CoqProject"),):
        if os.path.exists(f):
            txt = open(f).read()
            for bad in ("-type-in-type", "-impredicative-set", "-vos", "-vok", "-noglob-check"):
                if bad in txt:
                    problems.append("_CoqProject: forbidden flag " + bad)
    return problems, len(files)


def ensure_coq():
    """Full .vo build (incremental). Serialised across concurrent checks."""
    os.makedirs(WORK, exist_ok=True)
    with open(os.path.join(WORK, "coq.lock"), "w") as lk:
        fcntl.flock(lk, fcntl.LOCK_EX)
        if not os.path.exists(os.path.join(COQ, "Makefile")):
            sh(["coq_makefile", "-f", "_CoqProject", "-o", "Makefile"], cwd=COQ, check=True)
        rc, out = sh(["timeout", "1500", "make", "-j16"], cwd=COQ)
        if rc != 0:
            return False, out[-6000:]
    return True, ""


def property_obligations(prop):
    """Re-compile Properties/Cxx.v capturing Print Assumptions. Returns (theorems, closed, names, text)."""
    pf = os.path.join(COQ, "Properties", prop + ".v")
    if not os.path.exists(pf):
        raise Broken("no property file " + pf)
    src = strip_comments(open(pf).read())
    names = re.findall(r"^\s*(?:Theorem|Corollary)\s+(\w+)", src, re.M)
    prints = re.findall(r"Print Assumptions\s+(\w+)", src)
    missing = [n for n in names if n not in prints]
    tmpdir = os.path.join(WORK, "obl_" + prop)
    shutil.rmtree(tmpdir, ignore_errors=True)
    os.makedirs(tmpdir)
    # compile a copy so the project's .vo stays untouched; same logical path
    shutil.copy(pf, os.path.join(tmpdir, prop + "_obl.v"))
    rc, out = sh(["timeout", "600", "coqc", "-Q", COQ, "Flyt", prop + "_obl.v"], cwd=tmpdir)
    closed = out.count("Closed under the global context")
    axioms = re.findall(r"Axioms:\n((?:.+\n)+)", out)
    return {"rc": rc, "theorems": names, "missing_print": missing, "closed": closed,
            "prints": len(prints), "axioms": axioms, "out": out[-3000:]}


# ------------------------------------------------------------------ harness

def build_harness(race=False):
    os.makedirs(os.path.join(WORK, "bin"), exist_ok=True)
    out = os.path.join(WORK, "bin", "harness-race" if race else "harness")
    cmd = ["go", "build"] + (["-race"] if race else []) + ["-o", out, "."]
    with open(os.path.join(WORK, "go.lock"), "w") as lk:
        fcntl.flock(lk, fcntl.LOCK_EX)
        rc, txt = sh(cmd, cwd=HARNESS_SRC, env=GOENV, timeout=900)
    if rc != 0:
        return None, txt[-4000:]
    return out, ""


def parse_list_after(out, name):
    m = re.search(r"^" + name + r" =\s*(.*?)\n\s*: list", out, re.S | re.M)
    if not m:
        return None
    return m.group(1)


def eval_shard(path):
    d, f = os.path.dirname(path), os.path.basename(path)
    t0 = time.time()
    rc, out = sh(["timeout", "2400", "coqc", "-Q", COQ, "Flyt", f], cwd=d, env=COQENV)
    res = {"shard": f, "rc": rc, "wall": time.time() - t0, "bad": [], "ctl": None, "out": out[-3000:]}
    if rc != 0:
        return res
    bad = parse_list_after(out, "bad")
    if bad is None:
        res["rc"] = -1
        return res
    for m in re.finditer(r"\((\d+),\s*(true|false),\s*(true|false)(?:,\s*(true|false))?\)", bad):
        on_model = True if m.group(4) is None else (m.group(4) == "true")
        adm, sp = m.group(2) == "true", m.group(3) == "true"
        if not on_model:
            res.setdefault("unsound", []).append(int(m.group(1)))
            sp = True          # a predicate that fails on the model's own observation judges nothing
            if adm:
                continue
        res["bad"].append((int(m.group(1)), adm, sp))
    ctl = parse_list_after(out, "ctl")
    if ctl is not None:
        res["ctl"] = [int(x) for x in re.findall(r"\d+", ctl)]
    return res


def eval_shards(d):
    shards = sorted(glob.glob(os.path.join(d, "cases_*.v")))
    with concurrent.futures.ThreadPoolExecutor(max_workers=14) as ex:
        return list(ex.map(eval_shard, shards))


def load_cases(d):
    cases = {}
    p = os.path.join(d, "cases.jsonl")
    if os.path.exists(p):
        for line in open(p):
            c = json.loads(line)
            cases[c["id"]] = c
    return cases


# ------------------------------------------------------------------ known findings

def load_known():
    p = os.path.join(ROOT, "KNOWN_FINDINGS.txt")
    entries = []
    if os.path.exists(p):
        for line in open(p):
            line = line.strip()
            if line.startswith("open:"):
                m = re.match(r"open:\s*property=(\S+)\s+signature=(\S+)\s+(.*)", line)
                if m:
                    entries.append({"property": m.group(1), "signature": m.group(2), "what": m.group(3)})
    return entries


# ------------------------------------------------------------------ running one part

def run_part(prop, part, tier, seed, tag=""):
    """Run one family of a property. Returns dict with stats, failing cases, machinery errors."""
    family = part["family"]
    d = os.path.join(WORK, "%s-%s-%s%s" % (prop, family, tier, tag))
    shutil.rmtree(d, ignore_errors=True)
    os.makedirs(d)
    hb, err = build_harness(race=part.get("race", False))
    if hb is None:
        return {"dir": d, "build_error": err}
    cmd = ["timeout", str(part.get("timeout", 1200)), hb, family, "-prop", prop, "-tier", tier,
           "-seed", str(seed), "-out", d] + part.get("args", [])
    env = dict(os.environ, GOMAXPROCS=os.environ.get("GOMAXPROCS", "16"))
    if part.get("race"):
        # a data race inside the implementation stops the harness at once (exit 66): the scenario
        # it was running is the replay
        env["GORACE"] = "halt_on_error=1"
    rc, out = sh(cmd, cwd=ROOT, env=env)
    res = {"dir": d, "harness_rc": rc, "harness_out": out[:1500] + "\n...\n" + out[-2500:]}
    if rc != 0:
        pf = os.path.join(d, "progress.json")
        if os.path.exists(pf):
            try:
                res["crashed_on"] = json.load(open(pf))
            except Exception:
                pass
        return res
    res["stats"] = json.load(open(os.path.join(d, "stats.json")))
    shards = eval_shards(d)
    res["shards"] = shards
    res["cases"] = load_cases(d)
    return res


def judge_part(res):
    """-> (failures [(id, admitted, spec)], machinery_errors [str])"""
    errs, fails = [], []
    if "build_error" in res:
        return [], ["harness does not build against the current tree:\n" + res["build_error"]]
    if res.get("harness_rc", 0) != 0:
        if "crashed_on" in res:
            # the process died (fatal Go error, or the watchdog of the whole harness) while the
            # implementation was running this scenario: a concrete failing input
            c = res["crashed_on"]
            res["cases"] = {c["id"]: {"id": c["id"], "scen": c["scen"], "tags": c.get("tags"),
                                      "obs": {"crash": res.get("harness_out", "")[:3000]}}}
            res["stats"] = {"evaluations": c["id"] + 1, "distinct_nontrivial": 0, "controls": 0}
            res["shards"] = []
            return [(c["id"], False, False)], []
        return [], ["harness exited %s:\n%s" % (res["harness_rc"], res.get("harness_out", ""))]
    saw_ctl = False
    for s in res["shards"]:
        if s["rc"] != 0:
            errs.append("coqc failed on %s:\n%s" % (s["shard"], s["out"]))
            continue
        fails.extend(s["bad"])
        if s.get("unsound"):
            errs.append("predicate is false of the model's own observation (defect of the predicate, not of the code): cases %s in %s"
                        % (s["unsound"][:10], s["shard"]))
        if s["ctl"] is not None:
            saw_ctl = True
            if s["ctl"]:
                errs.append("negative controls accepted (machinery too weak): %s in %s" % (s["ctl"], s["shard"]))
    if res["stats"].get("controls", 0) > 0 and not saw_ctl:
        errs.append("negative controls were not evaluated")
    floor = res["stats"].get("extra", {}).get("nontrivial_floor")
    if floor is not None and res["stats"]["distinct_nontrivial"] < floor:
        errs.append("generator degenerate: %d distinct non-trivial cases < floor %d" %
                    (res["stats"]["distinct_nontrivial"], floor))
    return fails, errs


def model_view(prop, part, res, cid):
    """Ask Coq what the model observes for one case (for the replay file)."""
    try:
        hb, _ = build_harness(race=part.get("race", False))
        case = res["cases"][cid]
        d = os.path.join(res["dir"], "view_%d" % cid)
        os.makedirs(d, exist_ok=True)
        jf = os.path.join(d, "case.json")
        json.dump(case, open(jf, "w"))
        sh([hb, part["family"], "-prop", prop, "-replay", jf, "-out", d] + part.get("args", []), cwd=ROOT, timeout=120)
        vf = glob.glob(os.path.join(d, "cases_*.v"))
        if not vf or not part.get("model_obs"):
            return None
        src = open(vf[0]).read()
        src += "\nDefinition mv := Eval vm_compute in map (fun c => %s (snd (fst c))) cases.\nPrint mv.\n" % part["model_obs"]
        open(vf[0], "w").write(src)
        rc, out = sh(["timeout", "120", "coqc", "-Q", COQ, "Flyt", os.path.basename(vf[0])], cwd=d)
        m = re.search(r"mv =\s*(.*)\n\s*: list", out, re.S)
        return re.sub(r"\s+", " ", m.group(1)) if m else None
    except Exception as e:  # best effort only
        return "unavailable: %s" % e


def write_replay(prop, tier, seed, part, res, cid, admitted, spec, reason, extra=None):
    os.makedirs(REPLAYS, exist_ok=True)
    case = res["cases"].get(cid, {})
    path = os.path.join(REPLAYS, "%s-%s-%d-%d.json" % (prop, part["family"], seed, cid))
    obj = {"property": prop, "seed": seed, "tier": tier, "family": part["family"],
           "scenario": case.get("scen"), "impl_obs": case.get("obs"), "tags": case.get("tags"),
           "model_obs": model_view(prop, part, res, cid),
           "verdict": {"admitted": admitted, "spec": spec}, "reason": reason,
           "theorem_or_correspondence": part.get("admits", "admits") if not admitted else "spec_" + prop}
    if extra:
        obj.update(extra)
    json.dump(obj, open(path, "w"), indent=1)
    return path


def signature(case):
    """Canonical signature of a failing case for KNOWN_FINDINGS matching."""
    tags = case.get("tags") or []
    return ",".join(sorted(t for t in tags if t.startswith(("kind=", "mode=", "site=", "family="))))


# ------------------------------------------------------------------ main

def check(prop, tier, seed):
    t0 = time.time()
    cfg = PROPS[prop]
    violations = []     # (replay path, suffix)
    known_lines = []
    notes = []
    # 1. proof obligations
    ok, out = ensure_coq()
    lint, nfiles = lint_coq()
    obl = {"theorems": [], "closed": 0, "prints": 0, "missing_print": [], "axioms": [], "rc": 1, "out": ""}
    proof_ok = ok and not lint
    if ok:
        obl = property_obligations(prop)
        proof_ok = proof_ok and obl["rc"] == 0 and not obl["missing_print"] and not obl["axioms"] \
            and obl["closed"] == obl["prints"] and len(obl["theorems"]) > 0
    proof_reason = None
    if not proof_ok:
        proof_reason = "coq build failed:\n" + out if not ok else \
            ("lint: " + "; ".join(lint) if lint else
             "Properties/%s.v: rc=%s theorems=%d closed=%d prints=%d missing=%s axioms=%s\n%s" %
             (prop, obl["rc"], len(obl["theorems"]), obl["closed"], obl["prints"], obl["missing_print"], obl["axioms"], obl["out"]))
    coqchk = None
    if tier == "thorough" and ok and cfg.get("coqchk", True):
        rc, cout = sh(["timeout", "3000", "coqchk", "-silent", "-o", "-Q", COQ, "Flyt", "Flyt.Properties." + prop], cwd=COQ)
        coqchk = {"rc": rc, "tail": cout[-1500:]}
        if rc != 0:
            proof_ok = False
            proof_reason = "coqchk failed:\n" + cout[-3000:]
    # 2-4. correspondence
    agg = {"evaluations": 0, "distinct_nontrivial": 0, "traces": 0, "dist": {}, "samples": [], "rules": [],
           "exhaustive": True, "scopes": [], "controls": 0, "parts": []}
    machinery = []
    if not ok:
        machinery.append("model does not build; correspondence not evaluated")
    else:
        for part in cfg["parts"]:
            res = run_part(prop, part, tier, seed)
            fails, errs = judge_part(res)
            machinery.extend(errs)
            if "stats" in res:
                s = res["stats"]
                agg["evaluations"] += s["evaluations"]
                agg["distinct_nontrivial"] += s["distinct_nontrivial"]
                agg["traces"] += s["evaluations"]
                agg["controls"] += s.get("controls", 0)
                for k, v in (s.get("distribution") or {}).items():
                    agg["dist"][part["family"] + ":" + k] = v
                agg["samples"].extend((s.get("samples") or [])[:2])
                agg["rules"].append(part["family"] + ": " + s.get("rule", ""))
                agg["exhaustive"] = agg["exhaustive"] and s.get("exhaustive", False)
                agg["scopes"].append(part["family"] + ": " + s.get("scope", ""))
                agg["parts"].append({"family": part["family"], "evaluations": s["evaluations"],
                                     "shards": s.get("shards"), "extra": s.get("extra", {}),
                                     "coq_wall_s": round(sum(x["wall"] for x in res.get("shards", [])), 1)})
            if not fails:
                continue
            concrete = [f for f in fails if not f[2]]
            disagree = [f for f in fails if f[2] and not f[1]]
            if concrete:
                cid, adm, sp = concrete[0]
                path = write_replay(prop, tier, seed, part, res, cid, adm, sp,
                                    "the implementation's observation falsifies the proved predicate spec_%s "
                                    "(%d failing case(s) of %d)" % (prop, len(concrete), res["stats"]["evaluations"]),
                                    {"other_failing_ids": [c[0] for c in concrete[1:20]]})
                violations.append((path, "", res["cases"].get(cid, {})))
            else:
                # model and implementation disagree, spec not falsified on these cases: search
                found = None
                searched = []
                if tier == "quick" and not cfg.get("no_search"):
                    for k in range(1, 3):
                        r2 = run_part(prop, part, "thorough" if k == 1 else "quick", seed * 7919 + k, tag="-search%d" % k)
                        f2, e2 = judge_part(r2)
                        searched.append({"tier": "thorough" if k == 1 else "quick", "seed": seed * 7919 + k,
                                         "evaluations": r2.get("stats", {}).get("evaluations", 0)})
                        c2 = [f for f in f2 if not f[2]]
                        if c2:
                            found = (r2, c2[0])
                            break
                if found:
                    r2, (cid, adm, sp) = found
                    path = write_replay(prop, "thorough", seed, part, r2, cid, adm, sp,
                                        "found by the search started after a model/implementation disagreement")
                    violations.append((path, "", r2["cases"].get(cid, {})))
                else:
                    cid, adm, sp = disagree[0]
                    path = write_replay(prop, tier, seed, part, res, cid, adm, sp,
                                        "correspondence %s no longer holds: the implementation's observation is not "
                                        "one the model admits (%d disagreeing case(s)); spec_%s was not falsified on "
                                        "any explored input" % (part.get("admits", "admits"), len(disagree), prop),
                                        {"search": searched, "other_disagreeing_ids": [c[0] for c in disagree[1:20]]})
                    violations.append((path, " no-failing-input-found", res["cases"].get(cid, {})))
    if not proof_ok:
        os.makedirs(REPLAYS, exist_ok=True)
        path = os.path.join(REPLAYS, "%s-proof-%d.json" % (prop, seed))
        json.dump({"property": prop, "reason": "proof obligation no longer checks", "theorem_or_correspondence":
                   "Properties/%s.v" % prop, "detail": proof_reason}, open(path, "w"), indent=1)
        if not any(v[1] == "" for v in violations):
            violations.append((path, " no-failing-input-found", {}))
    if machinery and not violations:
        os.makedirs(REPLAYS, exist_ok=True)
        path = os.path.join(REPLAYS, "%s-machinery-%d.json" % (prop, seed))
        json.dump({"property": prop, "reason": "the check could not be completed on this tree",
                   "theorem_or_correspondence": "correspondence harness", "detail": machinery}, open(path, "w"), indent=1)
        violations.append((path, " no-failing-input-found", {}))
    # known findings
    known = [k for k in load_known() if k["property"] == prop]
    reported = []
    for path, suffix, case in violations:
        sig = signature(case)
        hit = [k for k in known if suffix == "" and k["signature"] == sig]
        if hit:
            known_lines.append("KNOWN-FINDING: property=%s %s" % (prop, hit[0]["what"]))
        else:
            reported.append((path, suffix))
    # evidence
    wall = time.time() - t0
    ev = {
        "property_id": prop, "tier": tier, "seed": seed, "level": "proof",
        "coverage": {
            "obligations": len(obl["theorems"]), "discharged": obl["closed"] if proof_ok else 0,
            "theorems": obl["theorems"],
            "checker_cmd": "make -C coq (coqc 8.16.1, full .vo) + coqc Properties/%s.v with Print Assumptions%s" %
                           (prop, "; coqchk -silent -o" if coqchk else ""),
            "trusted_base": TRUSTED_BASE + cfg.get("trusted_extra", []),
            "axioms": obl["axioms"], "lint_files": nfiles, "lint_problems": lint,
            "evaluations": agg["evaluations"], "distinct_nontrivial": agg["distinct_nontrivial"],
            "traces_validated_against_impl": agg["traces"],
            "rule": " | ".join(agg["rules"]), "samples": agg["samples"][:4] or [{"note": "no case produced"}],
            "exhaustive": bool(agg["exhaustive"] and agg["evaluations"] > 0),
            "scope": agg["scopes"], "distribution": agg["dist"], "negative_controls_rejected": agg["controls"],
            "parts": agg["parts"], "coqchk": coqchk,
            "explanation": cfg.get("explanation", ""),
        },
        "assumptions": cfg.get("assumptions", []),
        "wall_s": round(wall, 2), "violations": len(reported),
    }
    os.makedirs(EVID, exist_ok=True)
    json.dump(ev, open(os.path.join(EVID, prop + ".json"), "w"), indent=1)
    for l in known_lines:
        print(l)
    for n in notes:
        print(n)
    for path, suffix in reported:
        print("VIOLATION property=%s replay=%s%s" % (prop, path, suffix))
    if not reported:
        print("OK property=%s tier=%s seed=%d theorems=%d evaluations=%d distinct_nontrivial=%d wall=%.1fs" %
              (prop, tier, seed, len(obl["theorems"]), agg["evaluations"], agg["distinct_nontrivial"], wall))
    if not reported:
        # nothing to look at afterwards: drop the case files of this run (the thorough batch runs write
        # about a gigabyte each); statistics and the cases as JSON stay
        for part in cfg["parts"]:
            d = os.path.join(WORK, "%s-%s-%s" % (prop, part["family"], tier))
            for f in glob.glob(os.path.join(d, "cases_*.v*")) + glob.glob(os.path.join(d, "cases_*.glob")) + \
                    glob.glob(os.path.join(d, ".cases_*.aux")):
                try:
                    os.remove(f)
                except OSError:
                    pass
    return 1 if reported else 0


def replay(prop, path):
    cfg = PROPS[prop]
    obj = json.load(open(path))
    fam = obj.get("family") or cfg["parts"][0]["family"]
    part = [p for p in cfg["parts"] if p["family"] == fam][0]
    ok, out = ensure_coq()
    if not ok:
        print(out); return 2
    hb, err = build_harness(race=part.get("race", False))
    if hb is None:
        print(err); return 2
    d = os.path.join(WORK, "replay-" + prop)
    shutil.rmtree(d, ignore_errors=True); os.makedirs(d)
    rc, out = sh([hb, fam, "-prop", prop, "-replay", os.path.abspath(path), "-out", d] + part.get("args", []), cwd=ROOT, timeout=600)
    print(out)
    if rc != 0:
        return 2
    res = {"dir": d, "shards": eval_shards(d), "cases": load_cases(d), "stats": {"controls": 0, "distinct_nontrivial": 0}}
    fails, errs = judge_part(res)
    for e in errs:
        print("machinery:", e)
    mv = model_view(prop, part, res, 0) if res["cases"] else None
    print("model observation:", mv)
    if fails:
        for cid, adm, sp in fails:
            print("case %d: admitted=%s spec=%s" % (cid, adm, sp))
        print("VIOLATION property=%s replay=%s%s" % (prop, path, "" if any(not f[2] for f in fails) else " no-failing-input-found"))
        return 1
    print("replay passes: admitted and spec hold")
    return 0


def main(argv):
    ap = argparse.ArgumentParser()
    ap.add_argument("prop")
    ap.add_argument("--tier", default=os.environ.get("VERIF_TIER", "quick"), choices=["quick", "thorough"])
    ap.add_argument("--seed", type=int, default=int(os.environ.get("VERIF_SEED", "1") or 1))
    ap.add_argument("--replay")
    a = ap.parse_args(argv)
    if a.prop not in PROPS:
        print("unknown property", a.prop); return 2
    try:
        if a.replay:
            return replay(a.prop, a.replay)
        return check(a.prop, a.tier, a.seed)
    except Exception as e:  # fail closed: the property is not shown to hold on this tree
        import traceback
        os.makedirs(REPLAYS, exist_ok=True)
        path = os.path.join(REPLAYS, "%s-machinery-%d.json" % (a.prop, a.seed))
        json.dump({"property": a.prop, "reason": "the check could not be completed on this tree",
                   "theorem_or_correspondence": "correspondence harness / orchestrator",
                   "detail": traceback.format_exc()[-3000:]}, open(path, "w"), indent=1)
        print("VIOLATION property=%s replay=%s no-failing-input-found" % (a.prop, path))
        return 1
