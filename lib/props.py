"""Per-property configuration of bin/check: which harness families decide it."""

ENGINE = {"family": "engine", "admits": "EngineCorr.admits_engine", "model_obs": "model_obs"}

PROPS = {
    "C18": {
        "parts": [ENGINE],
        "level_text": "Theorems C18_nonempty / C18_post_action / C18_default_edge_followed hold for every node kind, oracle (all user code), start state and fuel; the executable predicate spec_C18 is proved of every model observation and applied to the implementation's observations; the model is tied to the code by exhaustive enumeration of node kinds x post actions x empty-batch shapes (direct and as flow steps) with trace-equality against the model.",
        "level_note": "Trusted: Coq kernel + vm_compute, the hand-written model (tied by correspondence, not derived from source), Go harness/emitter. Concurrent batches enter C18_nonempty through an arbitrary executor parameter; their correspondence is exercised by the batch family.",
        "explanation": "C18_nonempty proved for every node kind, oracle and fuel; correspondence: exhaustive "
                       "enumeration of node kinds x post actions x empty-batch shapes, direct and as flow steps",
        "assumptions": ["engine-family scenarios use sequential batches; concurrent batches are covered by the batch family"],
    },
}


_T = "Trusted: Coq kernel + vm_compute, the hand-written model (tied by correspondence, not derived from source), Go harness/emitter."
PROPS["C01"] = {
    "parts": [ENGINE],
    "level_text": "Theorem C01_lifecycle: for every oracle (all user code / outcome scripts), every table of full user nodes and flows of any nesting, every budget and fuel, the trace appended by run is accepted by the lifecycle monitor (prep once with the run's store; exec attempts with exactly prep's value; fallback only after N failures; post iff the exec phase produced a result, with store, prep value and that result; nothing after a fatal callback) with a final state agreeing with the outcome; C01_outcome_exclusive: action xor error. The same monitor judges the implementation's traces; the model is tied to the code by exhaustive enumeration of node kinds x budgets x outcome scripts with trace equality.",
    "level_note": _T + " Nodes with absent phases are covered by trace equality with the model only (the monitor applies to nodes whose three phases are user-visible).",
    "explanation": "lifecycle monitor proved of every model run; exhaustive script enumeration against the implementation",
    "assumptions": ["C01 scenarios never cancel the context (C05 does)"],
}
PROPS["C02"] = {
    "parts": [ENGINE],
    "level_text": "Theorems C02_budget_exact (exactly min(k,N) exec attempts for every oracle, N>=1; on exhaustion the loop's error is the last attempt's), C02_batch_item (same for runExecWithRetries plus: fallback exactly once iff all N failed and the node has its own fallback, with the item and the last error, never after a success), C02_copies_agree, C02_no_retry_iface; the lifecycle monitor (attempt k+1 only after k failures and k<N, fallback only after N failures with the last error) judges the implementation's traces; correspondence: every outcome vector in {ok,fail}^(N+1) for N in 1..5 (quick) / 1..8 (thorough) x fallback kinds x 8 node kinds.",
    "level_note": _T,
    "explanation": "counting theorems on the retry loop and its batch copy; exhaustive outcome-vector enumeration against the implementation",
    "assumptions": ["no cancellation inside C02 scenarios"],
}
PROPS["C04"] = {
    "parts": [ENGINE],
    "level_text": "Theorem C04_transparent_fail_stop: for every node kind, oracle, nesting depth and fuel, a failed run's error is a framework error, or the context's error with the context cancelled, or matches (same root through every wrap) the error returned by the LAST callback in the log - so nothing ran after the failure at any depth; C04_nil_iff via the lifecycle monitor. spec_C04 (monitor + fail_last_ok) is proved of the model and applied to the implementation; correspondence: a single failure injected at every callback position of the fault-free path of generated nested flows, in 4 error flavours.",
    "level_note": _T,
    "explanation": "FailLast proved by induction over fuel and nesting; single-fault injection at every callback of generated flows",
    "assumptions": ["error text is not modelled: only errors.Is/As classes"],
}
PROPS["C05"] = {
    "parts": [ENGINE],
    "level_text": "Theorems C05_pre_cancelled (no callback, context error) and C05_no_new_work (after the first cancelling callback no exec attempt and no prep is started, and a run that is cut short ends in the context's error: the monitor refuses CPrep/CExec once cancelled and accepts a truncated visit only with a context-class outcome) for every oracle, table of full user nodes and flows, fuel; spec_C05 proved of the model and applied to the implementation; correspondence: cancellation before the run and from inside every callback of the fault-free path, cancel and deadline contexts (the error must match the context's own error, not merely some context error).",
    "level_note": _T + " Cancellation arriving during a retry wait is C20.",
    "explanation": "monitor-based theorem; cancellation injected at every callback of generated flows",
    "assumptions": ["cancellation is issued from inside callbacks (deterministic); asynchronous cancellation during waits is C20"],
}
PROPS["C03"] = {
    "parts": [ENGINE],
    "level_text": "Theorems C03_connect_last_wins (the two-level table built by any list of Connect calls maps a pair to the target of the last call on it; re-connection overrides, other pairs untouched) and C03_path (for every graph - cycles, self-loops, shared targets, nesting -, oracle and fuel the visit tokens of the trace drive the flat routing machine, which starts at the start node, follows the most recent connection of (node, action) and ends exactly on a missing or nil connection, from 'enter n' to 'n finished with the returned action'; tokens of nodes off the path are rejected). spec_C03 = that machine + the lifecycle monitor, proved of the model and applied to the implementation; correspondence: every 2-node x 2-action table with overwritten / re-ordered Connect lists and action scripts, random graphs run three times, nested chains.",
    "level_note": _T + " Routing is judged on runs without cancellation (C05 covers cancelled flows).",
    "explanation": "refinement of Connect lists to last-wins lookup; simulation of the hierarchical engine by the flat routing machine",
    "assumptions": ["leaves have a prep and a post of their own so that visits are visible in the callback trace"],
}
PROPS["C10"] = {
    "parts": [ENGINE],
    "level_text": "Theorem C10_flatten: at any nesting depth the run of a hierarchy of flows is a run of the flat stack machine (frames (flow, member); a flow that ends presents the action of the last node it executed to its parent, which is asked for (flow node, action) exactly as for a plain node), for every oracle, fuel and context of enclosing flows; C10_same_store: every prep/post callback at every depth receives the run's store. spec_C10 proved of the model and applied to the implementation; correspondence: nested chains (depth 1..4 x routing level x ending mode x action) and random hierarchies with reuse, nil edges, failures inside inner flows.",
    "level_note": _T,
    "explanation": "simulation of the hierarchical engine by the flat stack machine, any depth",
    "assumptions": ["leaves have a prep and a post of their own so that visits are visible in the callback trace"],
}
PROPS["C17"] = {
    "parts": [ENGINE],
    "level_text": "Theorems C17_prep_to_exec, C17_exec_to_post_value, C17_exec_to_post_error, C17_styles_interchangeable, C17_batch_item, C17_batch_slot: for all 8 Result/Any style combinations and every payload that is not itself a Result, the exec function observes exactly what the prep function returned, the post function observes exactly what exec returned (an error Result stays one error Result: never wrapped twice, never stripped; Any style sees Value()), and the two styles differ by Value() in every position; the lifecycle monitor (C01) compares every callback argument of the implementation with these adapter functions; correspondence: 8 styles x option/builder/mixed x 9 payload kinds (incl. typed nils, Results, error Results) x success / retry / fallback paths x single / in flow, plus sequential batches over 7 prep shapes.",
    "level_note": _T + " Concurrent batches are exercised by the batch family.",
    "explanation": "adapter algebra proved for every payload; monitor compares arguments; enumeration of styles x payload kinds",
    "assumptions": ["payload identity is pointer identity for tokens; other payload kinds are compared by kind"],
}
for _p in ("C06", "C07", "C08", "C09", "C11"):
    PROPS[_p] = {
        "parts": [dict(ENGINE, timeout=600)],
        "level_text": "placeholder",
        "level_note": _T,
        "explanation": "",
        "assumptions": [],
        "coqchk": True,
    }

NOT_APPLICABLE = {}
