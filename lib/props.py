"""Per-property configuration of bin/check: which harness families decide it."""

ENGINE = {"family": "engine", "admits": "EngineCorr.admits_engine", "model_obs": "model_obs"}

PROPS = {
    "C18": {
        "parts": [ENGINE],
        "level_text": "Theorems C18_nonempty / C18_post_action / C18_default_edge_followed hold for every node kind, oracle (all user code), start state and fuel; the executable predicate spec_C18 is proved of every model observation and applied to the implementation's observations; the model is tied to the code by exhaustive enumeration of node kinds x post actions x empty-batch shapes (direct and as flow steps) with trace-equality against the model.",
        "level_note": "Trusted: Coq kernel + vm_compute, the hand-written model (tied by correspondence, not derived from source), Go harness/emitter. Concurrent batches enter C18_nonempty through an arbitrary executor parameter; their correspondence is exercised by the batch family.",
        "explanation": "C18_nonempty proved for every node kind, oracle and fuel; correspondence: exhaustive "
                       "enumeration of node kinds x post actions x empty-batch shapes, direct and as flow steps",
        "assumptions": ["engine-family scenarios use sequential batches; concurrent batches are covered by the batch family"],
    },
}

NOT_APPLICABLE = {}
