"""Per-property configuration of bin/check: which harness families decide it."""

ENGINE = {"family": "engine", "admits": "EngineCorr.admits_engine", "model_obs": "model_obs"}

PROPS = {
    "C18": {
        "parts": [ENGINE],
        "level_text": "Theorems C18_nonempty / C18_post_action / C18_default_edge_followed hold for every node kind, oracle (all user code), start state and fuel; the executable predicate spec_C18 is proved of every model observation and applied to the implementation's observations; the model is tied to the code by exhaustive enumeration of node kinds x post actions x empty-batch shapes (direct and as flow steps) with trace-equality against the model. Action names include whitespace-only ones (not empty, only looking it). The case files apply spec_C18x = spec_C18 and the routing machine of C03 (inside a flow the step after an empty action is the successor on the default action); C18_specx_holds_of_model.",
        "level_note": "Trusted: Coq kernel + vm_compute, the hand-written model (tied by correspondence, not derived from source), Go harness/emitter. Concurrent batches enter C18_nonempty through an arbitrary executor parameter; their correspondence is exercised by the batch family.",
        "explanation": "C18_nonempty proved for every node kind, oracle and fuel; correspondence: exhaustive "
                       "enumeration of node kinds x post actions x empty-batch shapes, direct and as flow steps",
        "assumptions": ["engine-family scenarios use sequential batches; concurrent batches are covered by the batch family"],
    },
}


_T = "Trusted: Coq kernel + vm_compute, the hand-written model (tied by correspondence, not derived from source), Go harness/emitter."
PROPS["C01"] = {
    "parts": [ENGINE],
    "level_text": "Theorem C01_lifecycle: for every oracle (all user code / outcome scripts), every table of full user nodes and flows of any nesting, every budget and fuel, the trace appended by run is accepted by the lifecycle monitor (prep once with the run's store; exec attempts with exactly prep's value; fallback only after N failures; post iff the exec phase produced a result, with store, prep value and that result; nothing after a fatal callback) with a final state agreeing with the outcome; C01_outcome_exclusive: action xor error. The same monitor judges the implementation's traces; the model is tied to the code by exhaustive enumeration of node kinds x budgets (including 0 and -1, which both the model and the repaired code treat as 1) x outcome scripts x 12 payload kinds x late Connect calls, with trace equality.",
    "level_note": _T + " Nodes with absent phases are covered by trace equality with the model only (the monitor applies to nodes whose three phases are user-visible).",
    "explanation": "lifecycle monitor proved of every model run; exhaustive script enumeration against the implementation",
    "assumptions": ["C01 scenarios never cancel the context (C05 does)"],
}
PROPS["C02"] = {
    "parts": [ENGINE],
    "level_text": "Theorems C02_budget_exact (exactly min(k,N) exec attempts for every oracle, N>=1; on exhaustion the loop's error is the last attempt's), C02_batch_item (same for runExecWithRetries plus: fallback exactly once iff all N failed and the node has its own fallback, with the item and the last error, never after a success), C02_copies_agree, C02_no_retry_iface; the lifecycle monitor (attempt k+1 only after k failures and k<N, fallback only after N failures with the last error) judges the implementation's traces; correspondence: every outcome vector in {ok,fail}^(N+1) for N in 1..5 (quick) / 1..8 (thorough) and the configured budgets 0 and -1 (C02_budget_at_least_one: a budget below one is one) x fallback kinds x 8 node kinds.",
    "level_note": _T,
    "explanation": "counting theorems on the retry loop and its batch copy; exhaustive outcome-vector enumeration against the implementation",
    "assumptions": ["no cancellation inside C02 scenarios"],
}
PROPS["C04"] = {
    "parts": [ENGINE],
    "level_text": "Theorem C04_transparent_fail_stop: for every node kind, oracle, nesting depth and fuel, a failed run's error is a framework error, or the context's error with the context cancelled, or matches (same root through every wrap) the error returned by the LAST callback in the log - so nothing ran after the failure at any depth; C04_nil_iff via the lifecycle monitor. spec_C04 (monitor + fail_last_ok) is proved of the model and applied to the implementation; correspondence: a single failure injected at every callback position of the fault-free path of generated nested flows, in 8 error flavours (plain, %w-wrapped, custom type, wrapping a context error of a live context, non-comparable, errors.Join, outer type with a foreign cause; a stale value is returned beside every error); spec_C04x adds that a framework error is one the table can actually cause (C04_specx_holds_of_model).",
    "level_note": _T,
    "explanation": "FailLast proved by induction over fuel and nesting; single-fault injection at every callback of generated flows",
    "assumptions": ["error text is not modelled: only errors.Is/As classes"],
}
PROPS["C05"] = {
    "parts": [ENGINE],
    "level_text": "Theorems C05_pre_cancelled (no callback, context error) and C05_no_new_work (after the first cancelling callback no exec attempt and no prep is started, and a run that is cut short ends in the context's error: the monitor refuses CPrep/CExec once cancelled and accepts a truncated visit only with a context-class outcome) for every oracle, table of full user nodes and flows, fuel; spec_C05 proved of the model and applied to the implementation; correspondence: cancellation before the run and from inside every callback of the fault-free path, cancel and deadline contexts (the error must match the context's own error, not merely some context error). C05_framework_error_has_cause: for every oracle that does not itself answer with a framework-class error, every table, depth and fuel, a failed run reports a framework-class error only if the table has a cause for one (a flow without start node, a reference to an unknown node) - so a run cut short by the context cannot come back with a fixed framework error; C05_specx_holds_of_model: the predicate the case files apply (spec_C05 and that clause) holds of the model's observation of every scenario.",
    "level_note": _T + " Cancellation arriving during a retry wait is C20.",
    "explanation": "monitor-based theorem; cancellation injected at every callback of generated flows",
    "assumptions": ["cancellation is issued from inside callbacks (deterministic); asynchronous cancellation during waits is C20"],
}
PROPS["C03"] = {
    "parts": [ENGINE],
    "level_text": "Theorems C03_connect_last_wins (the two-level table built by any list of Connect calls maps a pair to the target of the last call on it; re-connection overrides, other pairs untouched) and C03_path (for every graph - cycles, self-loops, shared targets, nesting -, oracle and fuel the visit tokens of the trace drive the flat routing machine, which starts at the start node, follows the most recent connection of (node, action) and ends exactly on a missing or nil connection, from 'enter n' to 'n finished with the returned action'; tokens of nodes off the path are rejected). spec_C03 = that machine + the lifecycle monitor, proved of the model and applied to the implementation; correspondence: every 2-node x 2-action table with overwritten / re-ordered Connect lists and action scripts, random graphs run three times, nested chains.",
    "level_note": _T + " Routing is judged on runs without cancellation (C05 covers cancelled flows).",
    "explanation": "refinement of Connect lists to last-wins lookup; simulation of the hierarchical engine by the flat routing machine",
    "assumptions": ["leaves have a prep and a post of their own so that visits are visible in the callback trace"],
}
PROPS["C10"] = {
    "parts": [ENGINE],
    "level_text": "Theorem C10_flatten: at any nesting depth the run of a hierarchy of flows is a run of the flat stack machine (frames (flow, member); a flow that ends presents the action of the last node it executed to its parent, which is asked for (flow node, action) exactly as for a plain node), for every oracle, fuel and context of enclosing flows; C10_same_store: every prep/post callback at every depth receives the run's store. spec_C10 proved of the model and applied to the implementation; correspondence: nested chains (depth 1..4 x routing level x ending mode x action) and random hierarchies with reuse, nil edges, failures inside inner flows. Every prep / post callback of a scenario writes a key of its own into the store and counts as having received 'the run's store' only if it is that store holding exactly the keys written so far (the engine never writes, removes or swaps).",
    "level_note": _T,
    "explanation": "simulation of the hierarchical engine by the flat stack machine, any depth",
    "assumptions": ["leaves have a prep and a post of their own so that visits are visible in the callback trace"],
}
PROPS["C17"] = {
    "parts": [ENGINE],
    "level_text": "Theorems C17_prep_to_exec, C17_exec_to_post_value, C17_exec_to_post_error, C17_styles_interchangeable, C17_batch_item, C17_batch_slot: for all 8 Result/Any style combinations and every payload that is not itself a Result, the exec function observes exactly what the prep function returned, the post function observes exactly what exec returned (an error Result stays one error Result: never wrapped twice, never stripped; Any style sees Value()), and the two styles differ by Value() in every position; the lifecycle monitor (C01) compares every callback argument of the implementation with these adapter functions; correspondence: 8 styles x option/builder/mixed x 12 payload kinds (incl. typed nils, Results, error Results, containers compared by identity) x success / retry / fallback paths x single / in flow, plus sequential batches over 7 prep shapes.",
    "level_note": _T + " Concurrent batches are exercised by the batch family.",
    "explanation": "adapter algebra proved for every payload; monitor compares arguments; enumeration of styles x payload kinds",
    "assumptions": ["payload identity is pointer identity for tokens; other payload kinds are compared by kind"],
}
_TB = _T + " The concurrent path is a hand-written transition system at the granularity of the Go code (wg.Add / send / receive / mutex-protected sections / each ctx.Err() read / each callback return are single steps); mutual exclusion of sync.Mutex, channel FIFO and WaitGroup semantics are assumed Go runtime semantics. The code is driven only along gated schedules (every exec call parked, one released at a time, quiescence recognised from goroutine states) where its whole trace, including the set of calls in flight at every quiescent point, must equal the model's; interleavings inside the library between two callback-free steps cannot be forced without hooks. Trace-level predicates spec_C06..C11 are applied to the implementation's trace and, as a guard, to the model's own trace of the same scenario (a predicate false of the model is reported as a defect of the predicate)."
_BATCH = dict(ENGINE, timeout=1500)
PROPS["C06"] = {
    "parts": [_BATCH],
    "level_text": "Theorems over ALL schedules of the transition system of runBatchConcurrent on the worker pool (any number of items, workers, queue capacity, budget, all user code): C06_slots_positional - once the submitter is past pool.Wait every one of the n slots is written and slot i is determined by the callback events of item i alone (per-item monitor), so result i is the outcome of item i and of no other for every completion order; C06_post_after_all_settled - Wait is a barrier (nothing queued or running). Correspondence: gated runs over every release-priority permutation for n<=5 (quick) / n<=7 (thorough), c in 1..4, sequential n in 0..64, 6 prep payload shapes, with full-trace equality; spec_C06 (post once and last, items in order, equal length, each slot = outcome of that item's events, never-executed items carry an error) judges the implementation's trace.",
    "level_note": _TB, "explanation": "invariants of the pool/batch transition system for all schedules + gated exhaustive completion orders",
    "assumptions": ["items are pairwise distinct tokens in correspondence scenarios so that events can be attributed to items"],
}
PROPS["C07"] = {
    "parts": [_BATCH],
    "level_text": "Theorems over ALL schedules: C07_item_processing_independent - in every reachable state the events made for item i are a prefix of a budget-exact processing of item i (the per-item monitor, which reads item i's events only, never rejects), so no other item can prevent, repeat or alter them; C07_slot_is_item_outcome; C07_one_worker_per_item (exactly once); C07_item_budget_exact (min(k,N) attempts, fallback iff all N failed, for the item loop). Correspondence: every assignment of {ok, fail-ok, fail-fail}^3 x fallback {default, user ok, user err} x N<=2 x c in {0,2} under several completion orders, budgets 3 and 4 with one and the same error value on consecutive attempts, random batches up to 64 items / 16 workers, full-trace equality.",
    "level_note": _TB, "explanation": "per-item monitor invariant for all schedules; exhaustive per-item script assignments",
    "assumptions": ["batch nodes have an exec function (has_exec)"],
}
PROPS["C08"] = {
    "parts": [_BATCH, {"family": "batchprobe", "admits": "BatchStressCorr.spec_C08_probe", "model_obs": None, "timeout": 600}],
    "level_text": "Theorems over ALL schedules: C08_upper - never more than `workers` exec calls (or tasks) in flight; C08_notes_bounded - the same read off the log (the observer's note is a step of the system, so the gated model run is one of the schedules: C07_model_run_is_a_schedule); C08_usable - in every reachable quiescent state (no step of the submitter or of a worker outside an exec call enabled) before the end, EVERY worker is inside an exec call or all n items have been handed out: c blocking executions do run simultaneously; C08_no_deadlock; workers = max 1 c. Correspondence: at every quiescent point of every gated run the set of exec calls in flight observed on the implementation equals the model's (both bounds exactly, no timing thresholds); c=0 runs must be strictly sequential in item order; scenarios in which the controller sits on a quiescent point with a full queue for 150 ms (thorough: 1.2 s) before releasing anything (a Submit that gives up blocking after a while shows as an extra call in flight). Second part: 2 and 3 batches of concurrency 1..4 running at the same time, c items each, every exec call waiting for all calls of all batches: each batch has c workers of its own (C08_usable per batch), so the rendezvous completes; workers shared between batches would not let it.",
    "level_note": _TB, "explanation": "structural bound + enabledness analysis of quiescent states; in-flight sets compared at every quiescent point",
    "assumptions": ["queue capacity > 0 (the code uses 2*workers)"],
}
PROPS["C09"] = {
    "parts": [_BATCH, {"family": "batchstress", "admits": "BatchStressCorr.spec_C09_stress", "model_obs": None, "timeout": 600}],
    "level_text": "Theorems over ALL schedules: C09_stop_skips - once the stop flag is up, an item whose task has not passed its stop-flag check is never executed (its events stay empty for every continuation of every schedule), so only tasks already received by the other workers can still run; C09_stop_flag_permanent; C09_no_fake_success and C09_never_run_is_error - for every mode and schedule the slot of an item without events is an error slot; C09_two_workers_prefix (see the note). Correspondence: first failing item at every position for n<=8 (quick) / 16, c in 0..4, both modes, failing item released first / last / randomly; spec_C09 walks the implementation's trace (after the final failure only calls of items in flight at the last quiescent point may appear). Second part, free-running (ungated) stop-mode batches of 200 000 (quick) / 400 000 items with two workers: item 0 is held in flight until 20..60 ms after one of items 1..3 failed while the queue takes several times longer to drain; judged by 'no executed item (at most one) is larger than a skipped item AND larger than the failing item', plus no fake success, own result per executed item, one post with n results.",
    "level_note": _TB + " The bound of the free-running part is a theorem about the model: C09_two_workers_prefix - on two workers, for every schedule with the context alive, every item before an executed item y, other than a skipped item m < y, was processed to the end and succeeded, so no executed item lies above both a skipped item and the failing item (zero; the check allows one). Which interleavings the free runs reach is up to the Go scheduler.",
    "explanation": "unstarted-items invariant for all continuations; stop position sweep",
    "assumptions": [],
}
PROPS["C11"] = {
    "parts": [_BATCH],
    "level_text": "Theorems over ALL schedules (the environment's cancel step may occur anywhere): C11_no_new_work - once the context is cancelled no item gains an exec attempt except that an exec call already in flight may return (no new item, no new retry attempt, at most one committed call per worker); C11_cancellation_permanent; C11_terminates_no_deadlock; C11_slots - never-executed items carry an error slot, items cut short carry a context-class error. Correspondence: cancellation before the run and from inside the exec of every item index and attempt, n<=6 (quick) / 12, c in 0..4, both modes, w in {0,1ms}; spec_C11 walks the implementation's trace (after the cancelling callback only calls that were in flight may still appear, exactly one post, error slots; items_mon_ok: every item's own calls form attempt / wait / fallback in order).",
    "level_note": _TB,
    "explanation": "allowance invariant for all continuations; cancellation point sweep",
    "assumptions": ["cancellation is issued from inside callbacks in correspondence scenarios; the theorem also covers an asynchronous cancel step"],
}

PROPS["C14"] = {
    "parts": [{"family": "store", "admits": "StoreCorr.admits_store", "model_obs": None}],
    "level_text": "Theorem C14_isolated: for every operation sequence of any length (store operations, mutations of the maps and slices handed out, merges of those maps back) naming only objects that were handed out, every answer of the heap machine - the store as the Go code structures it: current map object updated in place, Clear re-allocating, GetAll and Keys copying into fresh objects - equals the answer of the machine in which the store is a map value and snapshots are separate values; C14_get_set / _get_delete / _get_merge (finite-map laws, Merge overwrites key-wise with the last binding, stored nil present), C14_reachable_nodup and C14_answers_consistent (Has/Len/Keys/GetAll agree). The implementation's answers must equal the heap machine's (admits) and the value machine's (spec_C14) on seeded sequences with ~15% snapshot mutations, twin values that are equal but not identical (so handing out a copy of a value instead of the value shows), map[string]any arguments, and a hostile corpus.",
    "level_note": _T + " Keys and values are identifiers; Go values of ten kinds (nil, scalars, slices, maps, pointers, structs, funcs) stand behind them. Locking is C13.",
    "explanation": "refinement heap machine -> value machine for all histories; differential runs with snapshot mutation",
    "assumptions": ["a Keys() slice is sorted by the scenario as soon as it is obtained (map iteration order is unspecified)"],
}

PROPS["C15"] = {
    "parts": [{"family": "values", "admits": "ValuesCorr.admits_values", "model_obs": "model_vobs"}],
    "level_text": "Theorems for every value of the modelled Go value universe (structural case analysis, any nesting): C15_variants (plain / Or-default / Must agree in all six families), C15_store_result and C15_store_missing (the store's second copy of every type switch agrees with the result accessor; a missing key gives the default), C15_conv_exact (AsInt / AsFloat64 succeed exactly for the 12 documented source types and return the modelled Go conversion: wrap to int64, truncation towards zero, round-to-nearest-even, exact float32 widening), C15_slice (AsSlice succeeds exactly for slice kinds and yields ToSlice's elements; ToSlice nil -> [], non-slice -> [v]); totality is structural. spec_C15 is proved of the model's results and applied to the implementation's 61 accessor results per value; conversions are compared bit for bit.",
    "level_note": _T + " The integer / IEEE-754 conversion functions are a hand-written specification of Go's conversions (cross-checked against the Go compiler on boundary and random values by this check); float -> int outside the int64 range is unspecified in Go and not compared.",
    "explanation": "case analysis over the value universe; differential run of every accessor on boundary and random values",
    "assumptions": ["int is 64 bits wide (the platform of this sandbox)"],
}

PROPS["C16"] = {
    "parts": [{"family": "bind", "admits": "BindCorr.admits_bind", "model_obs": "model_bobs"}],
    "level_text": "Theorems for ALL marshal / unmarshal functions (encoding/json is a parameter), all values and destinations: C16_no_panic (no partial reflect operation is reached outside its domain: IsNil only after Kind = Ptr), C16_errors (nil result value, missing key, untyped nil / non-pointer / nil-pointer destination: an error of that class, nothing written), C16_identity (destination of the value's own dynamic type: the value itself, no JSON), C16_json (otherwise exactly marshal then unmarshal into the destination, errors included), C16_store_result_agree (every non-nil value). spec_C16 is proved of the model and applied to the implementation: Result.Bind and SharedStore.Bind on the full product of 38 values x 28 destination kinds (34 with the pre-populated variants; flyt.Result held as a value and *flyt.Result as a destination included) against a reference encoding/json round trip on a clone (class of the outcome, wrapped error text, deep equality of the pointee with the reference / the value / its old contents, source unchanged).",
    "level_note": _T + " Destinations aliasing the source value are not generated (stated assumption).",
    "explanation": "decision structure of Bind for all JSON functions; product of values and destinations against a reference round trip",
    "assumptions": ["NaN / Inf payloads are left out of the deep-equality comparison in the thorough tier"],
}

PROPS["C19"] = {
    "parts": [{"family": "config", "admits": "ConfigCorr.admits_config", "model_obs": "model_cobs", "timeout": 600},
              {"family": "pool", "admits": "PoolCorr.admits_pool", "model_obs": None, "timeout": 300}],
    "level_text": "Theorems for every sequence of settings of any length: C19_forms_agree (option form = builder form of every setting), C19_newnode_order (NewNode's base-before-custom application = the given order, because the two groups write disjoint fields), C19_mix and C19_mix_batch (any mixture of constructor options and builder calls = left-to-right application in the order of taking effect), C19_last_wins, C19_frame (a setting leaves every other parameter untouched), C19_defaults (one attempt, no wait, sequential, continue, no functions; pool size <= 0 means 1), C19_built_is_denoted. The implementation is judged both against the constructors as written (admits_config) and against what the settings denote (spec_C19): getters, which tagged function fires in each phase, and a probe run whose whole callback trace (gated when concurrent) must equal the engine model's for the denoted configuration.",
    "level_note": _T + " Function-valued options passed to NewBatchNode are ignored by design (unknown option types) and are not generated.",
    "explanation": "field-wise last-wins algebra of settings; enumeration of short setting sequences and random longer ones with probe runs",
    "assumptions": ["waits are 0 or 1 ms in probe runs"],
}

PROPS["C12"] = {
    "parts": [{"family": "pool", "admits": "PoolCorr.admits_pool", "model_obs": None, "timeout": 600},
              {"family": "poolstress", "admits": "PoolCorr.spec_C12_stress", "model_obs": None, "race": True, "timeout": 900}],
    "level_text": "Theorems for every schedule of any number of submitting goroutines with any operation lists (Submit / Wait / Close, any number of rounds), any number of workers and queue capacity: C12_conservation (every task for which wg.Add ran is in exactly one place - waiting to be sent, queued, running, finished; the counter counts the unfinished ones), C12_exactly_once, C12_barrier (Wait can return only at counter 0, and then every task added so far by any submitter has finished), C12_blocks_not_drops (a full queue disables the send), C12_close (after Close every idle worker can leave). Correspondence: gated single-submitter operation lists on the real pool (sizes -1..16, task counts beyond the queue, repeated rounds, Wait on idle pool / with tasks in flight) whose log of quiescent running-sets, task ends and Wait returns must equal the model's; at every quiescent point the number of Submit calls that have returned is noted and must fit (returned - ended <= workers + queue: C12_outstanding_bounded and C12_blocks_ok_every_run, for every schedule; C12_model_log_is_a_run: the gated model log is the log of one of those schedules); race-detector stress runs with 1..4 submitters judged by counters (exactly once, barrier with plain writes, running <= workers, no worker goroutine after Close); Wait called while a task is held in flight and a second goroutine submits and completes further tasks must not return before the held task is let go.",
    "level_note": _T + " The orderings inside Submit (Add before send) and inside the worker's select cannot be forced on the code; they are proved on the model and only sampled by the stress runs. The happens-before edge Done -> Wait is sync.WaitGroup's (assumed, exercised by the race detector). Goroutine termination after Close is observed, not proved, on the code side.",
    "explanation": "conservation invariant with Permutation for all schedules; gated operation lists; race-detector stress",
    "assumptions": ["task identities are pairwise distinct"],
}

PROPS["C13"] = {
    "parts": [{"family": "lin", "admits": "LinCorr.admits_lin", "model_obs": None, "race": True, "timeout": 900},
              {"family": "lockscan", "admits": "LockCorr.admits_locks", "model_obs": None, "timeout": 120}],
    "level_text": "Partial. Proved: for the lock-disciplined store at the granularity of the Go bodies (Merge writes key by key, Keys/GetAll read entry by entry, sync.RWMutex as writer + reader count), for any number of threads, any operation lists and every schedule: C13_linearizable (the timestamped history is Linearizable against an ordinary map in the classic sense: a legal sequential permutation keeping real-time order; the witness is the response order), C13_response_order_legal, C13_race_free (no two threads inside bodies when one writes), and C13_unlocked_not_linearizable / C13_unlocked_racy (the same system without the lock is neither). C13_check_witness_sound: an accepted witness proves Linearizable. Implementation side: every recorded history of 2..6 goroutines over 3 keys, all nine operations plus typed getters, run under the race detector, is judged by that checker inside Coq on a witness proposed by a Go search; histories of <= 7 operations are additionally decided exhaustively by lin_search. C13_spec_is_the_store_model: the sequential map of the linearizability definition is the store machine of C14 that runs side by side with the Go store. The hypothesis of the model theorems - each operation holds the write lock (Set, Delete, Merge, Clear) or the read lock for its whole body, no state besides mutex and map, every other method goes through these - is compared on every run with a scan of the SOURCE of the store (harness/lockscan.go, go/ast: first mutex statement is Lock/RLock followed by the matching deferred unlock, map not touched before, mutex not mentioned elsewhere, no goroutine; struct fields). Not proved: that this syntactic discipline means what the model's steps say (Go memory model, sync.RWMutex), which is exercised by the race detector and the history checks.",
    "level_note": _T + " The scheduler is not controlled (no hooks): interleavings inside the store are whatever the Go runtime produces under a start barrier; the theorems cover all schedules of the model, the check samples those of the implementation.",
    "explanation": "all-schedule invariant proof on the granular lock model (response order is a linearization; mutual exclusion); implementation histories judged by a proved-sound witness checker under -race",
    "assumptions": ["typed getters are recorded as Get + conversion (conversion is C15)", "values are small naturals; keys k0..k2"],
}

PROPS["C20"] = {
    "parts": [{"family": "wait", "admits": "WaitCorr.admits_wait", "model_obs": "(fun sc => model_obs (ws_es sc))", "timeout": 900}],
    "level_text": "Partial (real time is a runtime matter). Proved over a logical clock: C20_node_waits and C20_item_waits_sequential (for every oracle - all user code and every answer to 'was the context cancelled during this wait' -, node kind, budget N >= 1, wait w and start state, the events of the retry loop of Run and of its batch copy are accepted by the wait monitor: no wait before the first attempt, exactly one wait between a failed attempt and the next when w > 0, none after the last attempt or a success, nothing after an interrupted wait; the loop's answer fits the monitor's final state), C20_interrupted_wait_aborts + C20_abort_ends_run (an interrupted wait ends the loop at once with the context's error, and Run returns it with no fallback and no post), C20_item_waits_every_schedule (the same acceptance for every batch item under EVERY schedule of submitter, workers and asynchronous cancellation), C20_gap (any timed sequence the monitor accepts, made in order, whose waits-followed-by-an-attempt lasted >= w, has every attempt after a failed one beginning >= w after that one ended: gaps_from, the predicate applied to the measured timestamps), and rejection examples for each forbidden shape. Implementation side: callback trace and outcome must equal the model's (scripted interruption of a chosen wait, realised by cancelling the context from outside 30 ms after the failed attempt before it), with monotonic-clock readings at entry and exit of every exec callback judged inside Coq by gaps_from (lower bound only), return-after-cancel <= min(5 s, w/2), and for a single node: context-class error and the failed attempt as the last callback. Waits 1..50 ms and 1 h / 2 s; budgets 2..5; single nodes of every retryable kind, batch items sequential and concurrent (gated). Not proved: that time.After(w) lasts at least w and that select returns when ctx.Done() fires (Go runtime; measured).",
    "level_note": _T + " Waits are pseudo-events of the model (not observable on the code without hooks): their position is checked through trace equality around them and through the clock readings.",
    "explanation": "wait monitor proved of the retry loop (both copies) and of batch items under every schedule; clock lemma; scripted interruptions and measured gaps on the implementation",
    "assumptions": ["each node is visited once per run in C20 scenarios", "time.After(w) takes at least w; select wakes on ctx.Done() (Go runtime)", "the harness cancels 30 ms after the failed attempt returned: the engine is assumed to have reached its wait by then (a later arrival would still be a context error, at a different wrap site, which the comparison ignores)"],
}

NOT_APPLICABLE = {}
